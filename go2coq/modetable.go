// modetable.go regenerates coq/Gen/ModeTable.v (property C13) from /repo's
// working tree: the enum switches that decide the DHT's client/server mode.
//
//	dht_options.go                 const block of ModeOpt        -> Inductive mode_opt
//	dht.go                         const block of mode           -> Inductive mode
//	dht.go  New                    switch cfg.Mode               -> initial_mode, initial_moves_to_server
//	dht.go  setMode                lock, equality test, switch m -> set_mode_action
//	dht.go  moveToServerMode/...   first assignment of dht.mode  -> move_to_server_sets, move_to_client_sets
//	subscriber_notifee.go          handleLocalReachabilityChangedEvent: switch e.Reachability -> reach_target
//	subscriber_notifee.go          startNetworkSubscriber: subscription / dispatch guards    -> subscribes, dispatches
//	dht_net.go handleNewMessage    first statement of the message loop                       -> message_rejected
//
// Every shape that is not understood aborts the translator (a broken
// obligation for ./check C13, never a pass).
package main

import (
	"fmt"
	"go/ast"
	"go/token"
	"strings"
)

func init() { generators = append(generators, genModeTable) }

// reachability values of github.com/libp2p/go-libp2p/core/network (a
// dependency: hard-wired; any other integer is ReachabilityOther).
var mtReach = []string{"ReachabilityUnknown", "ReachabilityPublic", "ReachabilityPrivate"}

func mtPos(n ast.Node) string { return fset.Position(n.Pos()).String() }

// mtEnum returns the names of the const block whose first spec has the given
// type name and an iota expression.
func mtEnum(rel, typ string) []string {
	f := parse(rel)
	for _, d := range f.Decls {
		g, ok := d.(*ast.GenDecl)
		if !ok || g.Tok != token.CONST || len(g.Specs) == 0 {
			continue
		}
		first := g.Specs[0].(*ast.ValueSpec)
		id, ok := first.Type.(*ast.Ident)
		if !ok || id.Name != typ {
			continue
		}
		var names []string
		for i, s := range g.Specs {
			vs := s.(*ast.ValueSpec)
			if len(vs.Names) != 1 {
				die("modetable: %s: const block of %s: one name per line expected", mtPos(vs), typ)
			}
			if i > 0 && (vs.Type != nil || len(vs.Values) != 0) {
				die("modetable: %s: const block of %s: only the first constant may carry an expression", mtPos(vs), typ)
			}
			names = append(names, vs.Names[0].Name)
		}
		return names
	}
	die("modetable: const block of type %s not found in %s", typ, rel)
	return nil
}

func mtIn(x string, l []string) bool {
	for _, y := range l {
		if x == y {
			return true
		}
	}
	return false
}

// mtSel renders a.b selector expressions ("dht.auto"), idents and calls without
// arguments ("dht.getMode()") as a string, "" otherwise.
func mtSel(e ast.Expr) string {
	switch x := e.(type) {
	case *ast.Ident:
		return x.Name
	case *ast.SelectorExpr:
		if s := mtSel(x.X); s != "" {
			return s + "." + x.Sel.Name
		}
	case *ast.CallExpr:
		if len(x.Args) == 0 {
			if s := mtSel(x.Fun); s != "" {
				return s + "()"
			}
		}
	case *ast.ParenExpr:
		return mtSel(x.X)
	}
	return ""
}

// mtVar describes a Go expression that the translated condition may mention.
type mtVar struct {
	coq   string   // Coq variable
	eqb   string   // decidable equality of its type
	names []string // constants of its type
}

// mtCond translates a boolean condition built from ==, !=, ||, &&, ! over the
// known variables and the constants of their types.
func mtCond(e ast.Expr, vars map[string]mtVar) string {
	switch x := e.(type) {
	case *ast.ParenExpr:
		return "(" + mtCond(x.X, vars) + ")"
	case *ast.UnaryExpr:
		if x.Op == token.NOT {
			return "(negb " + mtCond(x.X, vars) + ")"
		}
	case *ast.BinaryExpr:
		switch x.Op {
		case token.LOR:
			return "(" + mtCond(x.X, vars) + " || " + mtCond(x.Y, vars) + ")"
		case token.LAND:
			return "(" + mtCond(x.X, vars) + " && " + mtCond(x.Y, vars) + ")"
		case token.EQL, token.NEQ:
			l, r := mtSel(x.X), mtSel(x.Y)
			lv, lok := vars[l]
			rv, rok := vars[r]
			var s string
			switch {
			case lok && rok && lv.eqb == rv.eqb:
				s = fmt.Sprintf("(%s %s %s)", lv.eqb, lv.coq, rv.coq)
			case lok && mtIn(r, lv.names):
				s = fmt.Sprintf("(%s %s %s)", lv.eqb, lv.coq, r)
			case rok && mtIn(l, rv.names):
				s = fmt.Sprintf("(%s %s %s)", rv.eqb, l, rv.coq)
			default:
				die("modetable: %s: comparison of %q and %q not understood", mtPos(x), l, r)
			}
			if x.Op == token.NEQ {
				s = "(negb " + s + ")"
			}
			return s
		}
	}
	die("modetable: %s: condition not understood", mtPos(e))
	return ""
}

// mtIsLogging: a statement that only logs (logger.X(...), c.Write(...),
// baseLogger...), possibly wrapped in `if c := baseLogger.Check(...); c != nil`.
func mtIsLogging(s ast.Stmt) bool {
	switch x := s.(type) {
	case *ast.ExprStmt:
		call, ok := x.X.(*ast.CallExpr)
		if !ok {
			return false
		}
		name := mtSelAny(call.Fun)
		return strings.HasPrefix(name, "logger.") || strings.HasPrefix(name, "baseLogger.") || name == "c.Write"
	case *ast.IfStmt:
		if x.Init == nil {
			return false
		}
		as, ok := x.Init.(*ast.AssignStmt)
		if !ok || len(as.Rhs) != 1 {
			return false
		}
		call, ok := as.Rhs[0].(*ast.CallExpr)
		if !ok || !strings.HasPrefix(mtSelAny(call.Fun), "baseLogger.") {
			return false
		}
		for _, b := range x.Body.List {
			if !mtIsLogging(b) {
				return false
			}
		}
		return x.Else == nil
	}
	return false
}

func mtSelAny(e ast.Expr) string {
	switch x := e.(type) {
	case *ast.Ident:
		return x.Name
	case *ast.SelectorExpr:
		return mtSelAny(x.X) + "." + x.Sel.Name
	}
	return "?"
}

// mtAssignSeq translates a statement list made of `lhs = Const` and
// if/else over mtCond conditions into a Coq expression for the value of lhs
// after the list, given the expression cur for its value before.
func mtAssignSeq(list []ast.Stmt, lhs string, consts []string, vars map[string]mtVar, cur string) string {
	for _, s := range list {
		switch x := s.(type) {
		case *ast.AssignStmt:
			if x.Tok != token.ASSIGN || len(x.Lhs) != 1 || len(x.Rhs) != 1 || mtSel(x.Lhs[0]) != lhs {
				die("modetable: %s: expected `%s = <constant>`", mtPos(x), lhs)
			}
			c := mtSel(x.Rhs[0])
			if !mtIn(c, consts) {
				die("modetable: %s: %q is not one of %v", mtPos(x), c, consts)
			}
			cur = "(Some " + c + ")"
		case *ast.IfStmt:
			if x.Init != nil {
				die("modetable: %s: if with init statement not understood", mtPos(x))
			}
			c := mtCond(x.Cond, vars)
			th := mtAssignSeq(x.Body.List, lhs, consts, vars, cur)
			el := cur
			switch e := x.Else.(type) {
			case nil:
			case *ast.BlockStmt:
				el = mtAssignSeq(e.List, lhs, consts, vars, cur)
			case *ast.IfStmt:
				el = mtAssignSeq([]ast.Stmt{e}, lhs, consts, vars, cur)
			default:
				die("modetable: %s: else branch not understood", mtPos(x))
			}
			cur = fmt.Sprintf("(if %s then %s else %s)", c, th, el)
		default:
			if mtIsLogging(s) {
				continue
			}
			die("modetable: %s: statement not understood in an assignment switch", mtPos(s))
		}
	}
	return cur
}

func mtMustFunc(rel, name string) *ast.FuncDecl {
	fd := funcDecl(rel, name)
	if fd.Body == nil {
		die("modetable: %s in %s has no body", name, rel)
	}
	return fd
}

// mtReturnsError: `return nil, fmt.Errorf(...)` / `return fmt.Errorf(...)` / errors.New.
func mtReturnsError(list []ast.Stmt) bool {
	if len(list) != 1 {
		return false
	}
	r, ok := list[0].(*ast.ReturnStmt)
	if !ok || len(r.Results) == 0 {
		return false
	}
	call, ok := r.Results[len(r.Results)-1].(*ast.CallExpr)
	if !ok {
		return false
	}
	n := mtSelAny(call.Fun)
	return n == "fmt.Errorf" || n == "errors.New"
}

func genModeTable() {
	modeOpts := mtEnum("dht_options.go", "ModeOpt")
	modes := mtEnum("dht.go", "mode")
	if len(modeOpts) == 0 || len(modes) == 0 {
		die("modetable: empty enum")
	}
	var b strings.Builder
	b.WriteString("(* GENERATED by go2coq (modetable.go) from /repo's working tree: do not edit.\n")
	b.WriteString("   dht_options.go, dht.go, subscriber_notifee.go, dht_net.go *)\n")
	b.WriteString("From Coq Require Import Bool.\n\n")

	enum := func(name string, ctors []string, comment string) {
		fmt.Fprintf(&b, "(* %s *)\nInductive %s : Set :=\n", comment, name)
		for _, c := range ctors {
			fmt.Fprintf(&b, "| %s\n", c)
		}
		b.WriteString(".\n")
		fmt.Fprintf(&b, "Definition %s_eqb (a b : %s) : bool :=\n  match a, b with\n", name, name)
		for _, c := range ctors {
			fmt.Fprintf(&b, "  | %s, %s => true\n", c, c)
		}
		if len(ctors) > 1 {
			b.WriteString("  | _, _ => false\n")
		}
		b.WriteString("  end.\n\n")
	}
	enum("mode_opt", append(append([]string{}, modeOpts...), "ModeOptOther"),
		"dht_options.go: const block of ModeOpt; ModeOptOther = any other integer")
	enum("mode", modes, "dht.go: const block of mode (iota + 1: the zero value is no mode, modelled as None : option mode)")
	enum("reachability", append(append([]string{}, mtReach...), "ReachabilityOther"),
		"go-libp2p core/network Reachability (dependency, hard-wired); ReachabilityOther = any other integer")

	autoVar := map[string]mtVar{"dht.auto": {"auto", "mode_opt_eqb", modeOpts}}

	// ---- handleLocalReachabilityChangedEvent -------------------------------
	{
		fd := mtMustFunc("subscriber_notifee.go", "handleLocalReachabilityChangedEvent")
		if fd.Type.Params == nil || len(fd.Type.Params.List) != 2 || len(fd.Type.Params.List[0].Names) != 1 ||
			fd.Type.Params.List[0].Names[0].Name != "dht" || len(fd.Type.Params.List[1].Names) != 1 {
			die("modetable: %s: handleLocalReachabilityChangedEvent(dht, e) expected", mtPos(fd))
		}
		ev := fd.Type.Params.List[1].Names[0].Name
		list := fd.Body.List
		if len(list) < 3 {
			die("modetable: %s: body too short", mtPos(fd))
		}
		// var target mode
		ds, ok := list[0].(*ast.DeclStmt)
		okDecl := false
		if ok {
			if g, ok := ds.Decl.(*ast.GenDecl); ok && g.Tok == token.VAR && len(g.Specs) == 1 {
				vs := g.Specs[0].(*ast.ValueSpec)
				if len(vs.Names) == 1 && vs.Names[0].Name == "target" && len(vs.Values) == 0 && mtSel(vs.Type) == "mode" {
					okDecl = true
				}
			}
		}
		if !okDecl {
			die("modetable: %s: `var target mode` expected as the first statement", mtPos(list[0]))
		}
		sw, ok := list[1].(*ast.SwitchStmt)
		if !ok || sw.Init != nil || mtSel(sw.Tag) != ev+".Reachability" {
			die("modetable: %s: `switch %s.Reachability` expected as the second statement", mtPos(list[1]), ev)
		}
		type clause struct {
			labels []string
			body   string
		}
		var clauses []clause
		def := "None"
		seen := map[string]bool{}
		for _, c := range sw.Body.List {
			cc := c.(*ast.CaseClause)
			for _, s := range cc.Body {
				if _, isBr := s.(*ast.BranchStmt); isBr {
					die("modetable: %s: fallthrough/break not understood", mtPos(s))
				}
			}
			body := mtAssignSeq(cc.Body, "target", modes, autoVar, "None")
			if cc.List == nil {
				def = body
				continue
			}
			var labels []string
			for _, l := range cc.List {
				n := mtSel(l)
				if !strings.HasPrefix(n, "network.") || !mtIn(strings.TrimPrefix(n, "network."), mtReach) {
					die("modetable: %s: case label %q is not a known network.Reachability value", mtPos(l), n)
				}
				n = strings.TrimPrefix(n, "network.")
				if seen[n] {
					die("modetable: %s: duplicate case %s", mtPos(l), n)
				}
				seen[n] = true
				labels = append(labels, n)
			}
			clauses = append(clauses, clause{labels, body})
		}
		// the rest: logging, exactly one `err := dht.setMode(target)`, and an if on err that only logs
		setModeCalls := 0
		for _, s := range list[2:] {
			if mtIsLogging(s) {
				continue
			}
			switch x := s.(type) {
			case *ast.AssignStmt:
				if len(x.Rhs) == 1 {
					if call, ok := x.Rhs[0].(*ast.CallExpr); ok && mtSelAny(call.Fun) == "dht.setMode" &&
						len(call.Args) == 1 && mtSel(call.Args[0]) == "target" {
						setModeCalls++
						continue
					}
				}
			case *ast.IfStmt:
				okIf := x.Init == nil
				for _, t := range x.Body.List {
					okIf = okIf && mtIsLogging(t)
				}
				if e, ok := x.Else.(*ast.BlockStmt); ok {
					for _, t := range e.List {
						okIf = okIf && mtIsLogging(t)
					}
				} else if x.Else != nil {
					okIf = false
				}
				if okIf {
					continue
				}
			}
			die("modetable: %s: statement after the reachability switch not understood", mtPos(s))
		}
		if setModeCalls != 1 {
			die("modetable: %s: exactly one `dht.setMode(target)` expected, found %d", mtPos(fd), setModeCalls)
		}
		b.WriteString("(* subscriber_notifee.go handleLocalReachabilityChangedEvent: the argument of dht.setMode;\n")
		b.WriteString("   None = `target` keeps its zero value (setMode then returns an error) *)\n")
		b.WriteString("Definition reach_target (auto : mode_opt) (r : reachability) : option mode :=\n  match r with\n")
		for _, c := range clauses {
			fmt.Fprintf(&b, "  | %s => %s\n", strings.Join(c.labels, " | "), c.body)
		}
		fmt.Fprintf(&b, "  | _ => %s\n  end.\n\n", def)
	}

	// ---- startNetworkSubscriber: subscription and dispatch guards ---------------
	{
		fd := mtMustFunc("subscriber_notifee.go", "startNetworkSubscriber")
		const evName = "event.EvtLocalReachabilityChanged"
		subs, disp := "", ""
		unconditional := false
		ast.Inspect(fd.Body, func(n ast.Node) bool {
			switch x := n.(type) {
			case *ast.CompositeLit: // the unconditional event list
				for _, el := range x.Elts {
					if call, ok := el.(*ast.CallExpr); ok && mtSelAny(call.Fun) == "new" && len(call.Args) == 1 &&
						mtSelAny(call.Args[0]) == evName {
						unconditional = true
					}
				}
			case *ast.IfStmt:
				// if <cond> { evts = append(evts, new(event.EvtLocalReachabilityChanged)) }
				if len(x.Body.List) == 1 {
					if as, ok := x.Body.List[0].(*ast.AssignStmt); ok && len(as.Rhs) == 1 {
						if call, ok := as.Rhs[0].(*ast.CallExpr); ok && mtSelAny(call.Fun) == "append" && len(call.Args) == 2 {
							if nw, ok := call.Args[1].(*ast.CallExpr); ok && mtSelAny(nw.Fun) == "new" && len(nw.Args) == 1 &&
								mtSelAny(nw.Args[0]) == evName {
								if subs != "" || x.Else != nil || x.Init != nil {
									die("modetable: %s: subscription guard not understood", mtPos(x))
								}
								subs = mtCond(x.Cond, autoVar)
							}
						}
					}
				}
			case *ast.CaseClause:
				if len(x.List) == 1 && mtSelAny(x.List[0]) == evName {
					if len(x.Body) != 1 {
						die("modetable: %s: dispatch of EvtLocalReachabilityChanged not understood", mtPos(x))
					}
					ifs, ok := x.Body[0].(*ast.IfStmt)
					if !ok || ifs.Init != nil || len(ifs.Body.List) != 1 {
						die("modetable: %s: dispatch of EvtLocalReachabilityChanged not understood", mtPos(x))
					}
					es, ok := ifs.Body.List[0].(*ast.ExprStmt)
					if !ok {
						die("modetable: %s: dispatch body not understood", mtPos(ifs))
					}
					call, ok := es.X.(*ast.CallExpr)
					if !ok || mtSelAny(call.Fun) != "handleLocalReachabilityChangedEvent" || len(call.Args) != 2 ||
						mtSel(call.Args[0]) != "dht" || mtSel(call.Args[1]) != "evt" {
						die("modetable: %s: handleLocalReachabilityChangedEvent(dht, evt) expected", mtPos(ifs))
					}
					if e, ok := ifs.Else.(*ast.BlockStmt); ok {
						for _, t := range e.List {
							if !mtIsLogging(t) {
								die("modetable: %s: else branch of the dispatch guard must only log", mtPos(t))
							}
						}
					} else if ifs.Else != nil {
						die("modetable: %s: else branch of the dispatch guard not understood", mtPos(ifs))
					}
					disp = mtCond(ifs.Cond, autoVar)
				}
			}
			return true
		})
		if unconditional {
			die("modetable: startNetworkSubscriber subscribes to EvtLocalReachabilityChanged unconditionally: shape not understood")
		}
		if subs == "" || disp == "" {
			die("modetable: subscription guard (%q) or dispatch guard (%q) of EvtLocalReachabilityChanged not found", subs, disp)
		}
		fmt.Fprintf(&b, "(* subscriber_notifee.go startNetworkSubscriber: subscribes to EvtLocalReachabilityChanged iff *)\n")
		fmt.Fprintf(&b, "Definition subscribes (auto : mode_opt) : bool := %s.\n", subs)
		fmt.Fprintf(&b, "(* ... and a received event is passed to handleLocalReachabilityChangedEvent iff *)\n")
		fmt.Fprintf(&b, "Definition dispatches (auto : mode_opt) : bool := %s.\n\n", disp)
	}

	// ---- New: initial mode ---------------------------------------------------------
	{
		fd := mtMustFunc("dht.go", "New")
		idx := -1
		for i, s := range fd.Body.List {
			if sw, ok := s.(*ast.SwitchStmt); ok && mtSel(sw.Tag) == "cfg.Mode" {
				if idx >= 0 {
					die("modetable: %s: second switch on cfg.Mode", mtPos(s))
				}
				idx = i
			}
		}
		if idx < 1 || idx+1 >= len(fd.Body.List) {
			die("modetable: `switch cfg.Mode` not found in New")
		}
		if as, ok := fd.Body.List[idx-1].(*ast.AssignStmt); !ok || len(as.Lhs) != 1 || mtSel(as.Lhs[0]) != "dht.auto" ||
			len(as.Rhs) != 1 || mtSel(as.Rhs[0]) != "cfg.Mode" {
			die("modetable: %s: `dht.auto = cfg.Mode` expected before the initial-mode switch", mtPos(fd.Body.List[idx-1]))
		}
		sw := fd.Body.List[idx].(*ast.SwitchStmt)
		if sw.Init != nil {
			die("modetable: %s: switch with init", mtPos(sw))
		}
		hasDefault := false
		seen := map[string]bool{}
		var lines []string
		for _, c := range sw.Body.List {
			cc := c.(*ast.CaseClause)
			if cc.List == nil {
				if !mtReturnsError(cc.Body) {
					die("modetable: %s: default of the initial-mode switch must return an error", mtPos(cc))
				}
				hasDefault = true
				continue
			}
			var labels []string
			for _, l := range cc.List {
				n := mtSel(l)
				if !mtIn(n, modeOpts) || seen[n] {
					die("modetable: %s: case label %q not understood", mtPos(l), n)
				}
				seen[n] = true
				labels = append(labels, n)
			}
			if len(cc.Body) != 1 {
				die("modetable: %s: `dht.mode = <mode>` expected", mtPos(cc))
			}
			body := mtAssignSeq(cc.Body, "dht.mode", modes, nil, "None")
			lines = append(lines, fmt.Sprintf("  | %s => %s\n", strings.Join(labels, " | "), body))
		}
		if !hasDefault {
			die("modetable: %s: initial-mode switch without an error default", mtPos(sw))
		}
		b.WriteString("(* dht.go New: switch cfg.Mode; None = New returns an error *)\n")
		b.WriteString("Definition initial_mode (auto : mode_opt) : option mode :=\n  match auto with\n")
		for _, l := range lines {
			b.WriteString(l)
		}
		b.WriteString("  | _ => None\n  end.\n\n")
		// if dht.mode == modeServer { if err := dht.moveToServerMode(); err != nil { return nil, err } }
		ifs, ok := fd.Body.List[idx+1].(*ast.IfStmt)
		if !ok || ifs.Init != nil || ifs.Else != nil || len(ifs.Body.List) != 1 {
			die("modetable: %s: `if dht.mode == ... { moveToServerMode }` expected after the initial-mode switch", mtPos(fd.Body.List[idx+1]))
		}
		inner, ok := ifs.Body.List[0].(*ast.IfStmt)
		okInner := false
		if ok && inner.Init != nil {
			if as, ok := inner.Init.(*ast.AssignStmt); ok && len(as.Rhs) == 1 {
				if call, ok := as.Rhs[0].(*ast.CallExpr); ok && mtSelAny(call.Fun) == "dht.moveToServerMode" {
					okInner = true
				}
			}
		}
		if !okInner {
			die("modetable: %s: call of dht.moveToServerMode expected", mtPos(ifs))
		}
		cond := mtCond(ifs.Cond, map[string]mtVar{"dht.mode": {"m", "mode_eqb", modes}})
		b.WriteString("(* dht.go New: moveToServerMode (registers the stream handlers) is called at construction iff *)\n")
		fmt.Fprintf(&b, "Definition initial_moves_to_server (m : mode) : bool := %s.\n\n", cond)
	}

	// ---- setMode -----------------------------------------------------------------------
	{
		fd := mtMustFunc("dht.go", "setMode")
		if fd.Type.Params == nil || len(fd.Type.Params.List) != 1 || len(fd.Type.Params.List[0].Names) != 1 ||
			fd.Type.Params.List[0].Names[0].Name != "m" {
			die("modetable: %s: setMode(m mode) expected", mtPos(fd))
		}
		l := fd.Body.List
		if len(l) != 4 {
			die("modetable: %s: setMode: lock, deferred unlock, equality test, switch expected", mtPos(fd))
		}
		if es, ok := l[0].(*ast.ExprStmt); !ok || mtSel(es.X) != "dht.modeLk.Lock()" {
			die("modetable: %s: setMode must start with dht.modeLk.Lock()", mtPos(l[0]))
		}
		if df, ok := l[1].(*ast.DeferStmt); !ok || mtSel(df.Call) != "dht.modeLk.Unlock()" {
			die("modetable: %s: setMode must defer dht.modeLk.Unlock()", mtPos(l[1]))
		}
		vars := map[string]mtVar{"m": {"m", "mode_eqb", modes}, "dht.mode": {"cur", "mode_eqb", modes}}
		ifs, ok := l[2].(*ast.IfStmt)
		if !ok || ifs.Init != nil || ifs.Else != nil || len(ifs.Body.List) != 1 {
			die("modetable: %s: `if m == dht.mode { return nil }` expected", mtPos(l[2]))
		}
		if r, ok := ifs.Body.List[0].(*ast.ReturnStmt); !ok || len(r.Results) != 1 || mtSel(r.Results[0]) != "nil" {
			die("modetable: %s: `return nil` expected", mtPos(ifs))
		}
		// the early return must be an equality test of m and dht.mode (the zero value of m never equals dht.mode)
		if be, ok := ifs.Cond.(*ast.BinaryExpr); !ok || be.Op != token.EQL {
			die("modetable: %s: `m == dht.mode` expected", mtPos(ifs))
		}
		same := mtCond(ifs.Cond, vars)
		sw, ok := l[3].(*ast.SwitchStmt)
		if !ok || sw.Init != nil || mtSel(sw.Tag) != "m" {
			die("modetable: %s: `switch m` expected", mtPos(l[3]))
		}
		acts := map[string]bool{}
		var lines []string
		def := ""
		seen := map[string]bool{}
		for _, c := range sw.Body.List {
			cc := c.(*ast.CaseClause)
			if cc.List == nil {
				if !mtReturnsError(cc.Body) {
					die("modetable: %s: default of setMode must return an error", mtPos(cc))
				}
				def = "ActError"
				continue
			}
			if len(cc.Body) != 1 {
				die("modetable: %s: `return dht.moveTo...Mode()` expected", mtPos(cc))
			}
			r, ok := cc.Body[0].(*ast.ReturnStmt)
			if !ok || len(r.Results) != 1 {
				die("modetable: %s: `return dht.moveTo...Mode()` expected", mtPos(cc))
			}
			call := mtSel(r.Results[0])
			if call != "dht.moveToServerMode()" && call != "dht.moveToClientMode()" {
				die("modetable: %s: unexpected call %q", mtPos(r), call)
			}
			act := "Call_" + strings.TrimSuffix(strings.TrimPrefix(call, "dht."), "()")
			acts[act] = true
			var labels []string
			for _, lb := range cc.List {
				n := mtSel(lb)
				if !mtIn(n, modes) || seen[n] {
					die("modetable: %s: case label %q not understood", mtPos(lb), n)
				}
				seen[n] = true
				labels = append(labels, n)
			}
			lines = append(lines, fmt.Sprintf("      | %s => %s\n", strings.Join(labels, " | "), act))
		}
		if def == "" {
			die("modetable: %s: setMode switch without an error default", mtPos(sw))
		}
		b.WriteString("(* dht.go setMode (runs with dht.modeLk held from entry to return) *)\n")
		b.WriteString("Inductive mode_action : Set := ActNone | ActError | Call_moveToServerMode | Call_moveToClientMode.\n")
		b.WriteString("Definition set_mode_action (cur : mode) (target : option mode) : mode_action :=\n")
		b.WriteString("  match target with\n  | None => ActError (* the zero value: differs from dht.mode, matches no case *)\n")
		fmt.Fprintf(&b, "  | Some m =>\n      if %s then ActNone else\n      match m with\n", same)
		for _, ln := range lines {
			b.WriteString(ln)
		}
		if len(seen) < len(modes) {
			b.WriteString("      | _ => ActError\n")
		}
		b.WriteString("      end\n  end.\n\n")
	}

	// ---- moveToServerMode / moveToClientMode: the value stored in dht.mode -----------------
	for _, fn := range []struct{ name, coq string }{{"moveToServerMode", "move_to_server_sets"}, {"moveToClientMode", "move_to_client_sets"}} {
		fd := mtMustFunc("dht.go", fn.name)
		if len(fd.Body.List) == 0 {
			die("modetable: %s is empty", fn.name)
		}
		as, ok := fd.Body.List[0].(*ast.AssignStmt)
		if !ok || as.Tok != token.ASSIGN || len(as.Lhs) != 1 || mtSel(as.Lhs[0]) != "dht.mode" || len(as.Rhs) != 1 || !mtIn(mtSel(as.Rhs[0]), modes) {
			die("modetable: %s: `dht.mode = <mode>` expected as the first statement of %s", mtPos(fd.Body.List[0]), fn.name)
		}
		n := 0
		ast.Inspect(fd.Body, func(x ast.Node) bool {
			if a, ok := x.(*ast.AssignStmt); ok {
				for _, lh := range a.Lhs {
					if mtSel(lh) == "dht.mode" {
						n++
					}
				}
			}
			return true
		})
		if n != 1 {
			die("modetable: %s assigns dht.mode %d times", fn.name, n)
		}
		fmt.Fprintf(&b, "Definition %s : mode := %s. (* dht.go %s *)\n", fn.coq, mtSel(as.Rhs[0]), fn.name)
	}
	b.WriteString("\n")

	// ---- handleNewMessage: the per-message mode check ----------------------------------------
	{
		fd := mtMustFunc("dht_net.go", "handleNewMessage")
		var loop *ast.ForStmt
		for _, s := range fd.Body.List {
			if f, ok := s.(*ast.ForStmt); ok {
				if loop != nil {
					die("modetable: %s: second loop in handleNewMessage", mtPos(f))
				}
				loop = f
			}
		}
		if loop == nil || loop.Cond != nil || loop.Init != nil || loop.Post != nil || len(loop.Body.List) == 0 {
			die("modetable: the `for { ... }` message loop of handleNewMessage was not found")
		}
		ifs, ok := loop.Body.List[0].(*ast.IfStmt)
		if !ok || ifs.Init != nil || ifs.Else != nil || len(ifs.Body.List) == 0 {
			die("modetable: %s: the message loop must start with the mode check", mtPos(loop.Body.List[0]))
		}
		last, ok := ifs.Body.List[len(ifs.Body.List)-1].(*ast.ReturnStmt)
		if !ok || len(last.Results) != 1 || mtSel(last.Results[0]) != "false" {
			die("modetable: %s: the mode check must end with `return false`", mtPos(ifs))
		}
		for _, s := range ifs.Body.List[:len(ifs.Body.List)-1] {
			if !mtIsLogging(s) {
				die("modetable: %s: statement in the mode check not understood", mtPos(s))
			}
		}
		cond := mtCond(ifs.Cond, map[string]mtVar{"dht.getMode()": {"m", "mode_eqb", modes}})
		b.WriteString("(* dht_net.go handleNewMessage: first statement of the per-message loop; true = return false\n")
		b.WriteString("   (handleNewStream then resets the stream) before anything is read *)\n")
		fmt.Fprintf(&b, "Definition message_rejected (m : mode) : bool := %s.\n", cond)
		// getMode reads under the lock
		gm := mtMustFunc("dht.go", "getMode")
		okGm := len(gm.Body.List) == 3
		if okGm {
			es, ok1 := gm.Body.List[0].(*ast.ExprStmt)
			df, ok2 := gm.Body.List[1].(*ast.DeferStmt)
			rt, ok3 := gm.Body.List[2].(*ast.ReturnStmt)
			okGm = ok1 && ok2 && ok3 && mtSel(es.X) == "dht.modeLk.Lock()" && mtSel(df.Call) == "dht.modeLk.Unlock()" &&
				len(rt.Results) == 1 && mtSel(rt.Results[0]) == "dht.mode"
		}
		if !okGm {
			die("modetable: %s: getMode must be lock / deferred unlock / return dht.mode", mtPos(gm))
		}
	}
	write("ModeTable.v", b.String())
}
