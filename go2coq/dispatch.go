// Generator of coq/Gen/Dispatch.v (property C09): handlers.go:handlerForMsgType
// as a Gallina function from (message type, value store present, provider store
// present) to the handler's name, plus the numeric values of the message types
// (pb/dht.pb.go).
//
// Understood shape, anything else aborts:
//
//	func (dht *IpfsDHT) handlerForMsgType(t pb.Message_MessageType) dhtHandler {
//		switch t { case pb.Message_X: return dht.handleX ... }          // unconditional
//		if dht.<field> != nil { switch t { case ...: return dht.h ... } } // guarded by a store
//		...
//		return nil
//	}
package main

import (
	"fmt"
	"go/ast"
	"go/token"
	"math/big"
	"strings"
)

func init() { generators = append(generators, genDispatch) }

type dispatchArm struct {
	guard   string // "" or the IpfsDHT field that must be non-nil
	msgType string // Message_X
	handler string // handleX
}

func dispatchSwitch(st ast.Stmt, guard, recv, param string) []dispatchArm {
	sw, ok := st.(*ast.SwitchStmt)
	if !ok || sw.Init != nil {
		die("handlerForMsgType: expected a switch at %s", fset.Position(st.Pos()))
	}
	if id, ok := sw.Tag.(*ast.Ident); !ok || id.Name != param {
		die("handlerForMsgType: switch is not over the message type at %s", fset.Position(st.Pos()))
	}
	var arms []dispatchArm
	for _, c := range sw.Body.List {
		cc := c.(*ast.CaseClause)
		if len(cc.List) == 0 {
			die("handlerForMsgType: default clause at %s is not understood", fset.Position(cc.Pos()))
		}
		if len(cc.Body) != 1 {
			die("handlerForMsgType: case body at %s is not a single return", fset.Position(cc.Pos()))
		}
		ret, ok := cc.Body[0].(*ast.ReturnStmt)
		if !ok || len(ret.Results) != 1 {
			die("handlerForMsgType: case body at %s is not a single return", fset.Position(cc.Pos()))
		}
		h, ok := ret.Results[0].(*ast.SelectorExpr)
		if !ok {
			die("handlerForMsgType: returned value at %s is not a method of the DHT", fset.Position(ret.Pos()))
		}
		if x, ok := h.X.(*ast.Ident); !ok || x.Name != recv {
			die("handlerForMsgType: returned value at %s is not a method of the DHT", fset.Position(ret.Pos()))
		}
		for _, e := range cc.List {
			sel, ok := e.(*ast.SelectorExpr)
			if !ok || !strings.HasPrefix(sel.Sel.Name, "Message_") {
				die("handlerForMsgType: case expression at %s is not a pb.Message_* constant", fset.Position(e.Pos()))
			}
			arms = append(arms, dispatchArm{guard: guard, msgType: sel.Sel.Name, handler: h.Sel.Name})
		}
	}
	return arms
}

func genDispatch() {
	fd := funcDecl("handlers.go", "handlerForMsgType")
	if fd.Recv == nil || len(fd.Recv.List) != 1 || len(fd.Recv.List[0].Names) != 1 {
		die("handlerForMsgType: unexpected receiver")
	}
	recv := fd.Recv.List[0].Names[0].Name
	if len(fd.Type.Params.List) != 1 || len(fd.Type.Params.List[0].Names) != 1 {
		die("handlerForMsgType: unexpected parameters")
	}
	param := fd.Type.Params.List[0].Names[0].Name
	var arms []dispatchArm
	stmts := fd.Body.List
	if len(stmts) == 0 {
		die("handlerForMsgType: empty body")
	}
	last, ok := stmts[len(stmts)-1].(*ast.ReturnStmt)
	if !ok || len(last.Results) != 1 {
		die("handlerForMsgType: does not end with `return nil`")
	}
	if id, ok := last.Results[0].(*ast.Ident); !ok || id.Name != "nil" {
		die("handlerForMsgType: does not end with `return nil`")
	}
	for _, st := range stmts[:len(stmts)-1] {
		switch s := st.(type) {
		case *ast.SwitchStmt:
			arms = append(arms, dispatchSwitch(s, "", recv, param)...)
		case *ast.IfStmt:
			if s.Init != nil || s.Else != nil || len(s.Body.List) != 1 {
				die("handlerForMsgType: if statement at %s is not understood", fset.Position(s.Pos()))
			}
			be, ok := s.Cond.(*ast.BinaryExpr)
			if !ok || be.Op != token.NEQ {
				die("handlerForMsgType: condition at %s is not `dht.<field> != nil`", fset.Position(s.Pos()))
			}
			sel, ok1 := be.X.(*ast.SelectorExpr)
			nilid, ok2 := be.Y.(*ast.Ident)
			if !ok1 || !ok2 || nilid.Name != "nil" {
				die("handlerForMsgType: condition at %s is not `dht.<field> != nil`", fset.Position(s.Pos()))
			}
			if x, ok := sel.X.(*ast.Ident); !ok || x.Name != recv {
				die("handlerForMsgType: condition at %s is not `dht.<field> != nil`", fset.Position(s.Pos()))
			}
			arms = append(arms, dispatchSwitch(s.Body.List[0], sel.Sel.Name, recv, param)...)
		default:
			die("handlerForMsgType: statement at %s is not understood", fset.Position(st.Pos()))
		}
	}
	// guards become boolean parameters, in order of first appearance
	var guards []string
	seenG := map[string]bool{}
	var handlers []string
	seenH := map[string]bool{}
	var types []string
	seenT := map[string]bool{}
	for _, a := range arms {
		if a.guard != "" && !seenG[a.guard] {
			seenG[a.guard] = true
			guards = append(guards, a.guard)
		}
		if !seenH[a.handler] {
			seenH[a.handler] = true
			handlers = append(handlers, a.handler)
		}
		if seenT[a.msgType] {
			// an earlier arm wins in Go as well, but a duplicate means the shape changed
			die("handlerForMsgType: message type %s is dispatched twice", a.msgType)
		}
		seenT[a.msgType] = true
		types = append(types, a.msgType)
	}
	if len(guards) != 2 || guards[0] != "valueStore" || guards[1] != "providerStore" {
		die("handlerForMsgType: expected the guards valueStore and providerStore, found %v", guards)
	}
	pbf := parse("pb/dht.pb.go")
	var b strings.Builder
	b.WriteString("(* GENERATED by go2coq from handlers.go:handlerForMsgType and pb/dht.pb.go: do not edit. *)\nFrom Coq Require Import ZArith Bool.\nLocal Open Scope Z_scope.\n\n")
	// all message types of the enum, not only the dispatched ones
	all := []string{"Message_PUT_VALUE", "Message_GET_VALUE", "Message_ADD_PROVIDER", "Message_GET_PROVIDERS", "Message_FIND_NODE", "Message_PING"}
	for _, t := range types {
		found := false
		for _, a := range all {
			found = found || a == t
		}
		if !found {
			all = append(all, t)
		}
	}
	for _, t := range all {
		v := findValue(pbf, t)
		if v == nil {
			die("message type %s not found in pb/dht.pb.go", t)
		}
		n, d := eval(pbf, v)
		if d.Cmp(big.NewInt(1)) != 0 {
			die("message type %s is not an integer", t)
		}
		fmt.Fprintf(&b, "Definition %s : Z := %s.\n", t, n)
	}
	b.WriteString("\nInductive handler : Set :=\n")
	for _, h := range handlers {
		fmt.Fprintf(&b, "| %s\n", h)
	}
	b.WriteString(".\n\n(* [valueStore] / [providerStore]: the field is non-nil *)\n")
	b.WriteString("Definition handler_for (t : Z) (valueStore providerStore : bool) : option handler :=\n")
	for _, a := range arms {
		cond := fmt.Sprintf("(t =? %s)", a.msgType)
		if a.guard != "" {
			cond = fmt.Sprintf("%s && %s", a.guard, cond)
		}
		fmt.Fprintf(&b, "  if %s then Some %s else\n", cond, a.handler)
	}
	b.WriteString("  None.\n")
	write("Dispatch.v", b.String())
}
