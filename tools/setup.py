#!/usr/bin/env python3
"""Build everything the checks need: go2coq output, all .vo files, warm Go test binaries."""
import os, sys, subprocess, glob, importlib.util
ROOT = os.path.dirname(os.path.dirname(os.path.abspath(__file__)))
sys.path.insert(0, ROOT)
spec = importlib.util.spec_from_file_location("check", os.path.join(ROOT, "check"))
import importlib.machinery
loader = importlib.machinery.SourceFileLoader("check", os.path.join(ROOT, "check"))
spec = importlib.util.spec_from_loader("check", loader)
chk = importlib.util.module_from_spec(spec)
loader.exec_module(chk)

ok, out, _gf = chk.run_go2coq()
print("go2coq:", "ok" if ok else out)
files = chk.coq_files()
ok, out = chk.coq_make([f[:-2] + ".vo" for f in files], timeout=3000)
print("coq build:", "ok" if ok else out[-3000:])
if not ok:
    sys.exit(1)
# warm the Go build cache: compile each harness test binary once
pkgs = {}
for p in sorted(glob.glob(os.path.join(ROOT, "props", "C*.py"))):
    pid = os.path.basename(p)[:-3]
    P = chk.load_prop(pid)
    for k, run in enumerate(chk.runs_of(P)):
        outdir = os.path.join(ROOT, "out", pid, "warm_%d" % k)
        os.makedirs(outdir, exist_ok=True)
        ov = chk.write_overlay(run, outdir)
        rc, out, dt = chk.sh(["go", "test", chk.modfile_arg(outdir), "-tags", "verif", "-overlay", ov, "-count=1", "-vet=off", "-run", "^$", run["pkg"]],
                             cwd=chk.REPO, timeout=1800, env=chk.go_env())
        print("warm", pid, run["pkg"], "rc=%d %.0fs" % (rc, dt))
        if rc != 0:
            print(out[-2000:])
