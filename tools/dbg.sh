#!/bin/sh
# usage: dbg.sh <file relative to /verif/coq> <line> [tail-lines]
# prints the proof state just before that line
cd /verif/coq || exit 1
f=$1; n=$2; t=/tmp/dbg_tmp_$$.v
head -n $((n-1)) "$f" > $t
echo "Show. " >> $t
coqtop -Q Lib Verif.Lib -Q Gen Verif.Gen -Q Model Verif.Model -Q Proofs Verif.Proofs -Q Corr Verif.Corr -batch -l $t 2>&1 | tail -${3:-40}
rm -f $t
