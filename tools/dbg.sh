#!/bin/sh
# usage: dbg.sh file line  -> prints goal state at that line (before executing it)
f=$1; n=$2
head -n $((n-1)) $f > /tmp/dbg_tmp_$$.v
echo "Show. " >> /tmp/dbg_tmp_$$.v
cd /verif/coq && coqtop -Q Lib Verif.Lib -Q Gen Verif.Gen -Q Model Verif.Model -Q Proofs Verif.Proofs -Q Corr Verif.Corr -batch -l /tmp/dbg_tmp_$$.v 2>&1 | tail -${3:-40}
