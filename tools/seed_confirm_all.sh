#!/bin/bash
# usage: seed_confirm_all.sh P1 P2 ... ; uses /tmp/seed/<P> worktrees and /tmp/seedwork/<P> deliveries
for p in "$@"; do
  pkg=$(python3 -c "import json;print(json.load(open('/tmp/seedwork/$p/meta.json')).get('demo_pkg','.'))")
  echo "##### $p pkg=$pkg"
  /verif/tools/seed_confirm.sh ${p}a $p $pkg /tmp/seed/$p /tmp/seedwork/$p
done
