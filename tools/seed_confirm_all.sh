#!/bin/bash
# usage: seed_confirm_all.sh N1 N2 ... ; a name is a property id optionally followed by a letter (C01, C01b);
# uses /tmp/seed/<name> worktrees and /tmp/seedwork/<name> deliveries
for n in "$@"; do
  p=${n:0:3}
  pkg=$(python3 -c "import json;print(json.load(open('/tmp/seedwork/$n/meta.json')).get('demo_pkg','.'))")
  echo "##### $n (property $p) pkg=$pkg"
  /verif/tools/seed_confirm.sh $n $p $pkg /tmp/seed/$n /tmp/seedwork/$n
done
