#!/bin/bash
# usage: tools/stress.sh ROUNDS PAR [props...] : runs the quick checks concurrently (flake hunt under CPU load); keeps the
# output dir of every failing run under /tmp/stress_fail/<prop>_<round>
cd "$(dirname "$0")/.."
rounds=${1:-2}; par=${2:-6}; shift 2
props=${@:-C01 C02 C03 C04 C05 C06 C07 C08 C09 C10 C11 C12 C13 C14 C15 C16 C17 C18 C19 C20}
mkdir -p /tmp/stress_fail
for r in $(seq 1 $rounds); do
  echo "== round $r"
  for p in $props; do echo $p; done | xargs -P $par -I{} bash -c './check {} > /tmp/stress_{}.log 2>&1; l=$(grep -E "^(PASS|FAIL)" /tmp/stress_{}.log | tail -1 | cut -c1-140); echo "$l"; if ! grep -q "^PASS" /tmp/stress_{}.log; then rm -rf /tmp/stress_fail/{}_'$r'; cp -r out/{} /tmp/stress_fail/{}_'$r'; cp /tmp/stress_{}.log /tmp/stress_fail/{}_'$r'/check.log; fi'
done
