#!/bin/bash
# usage: tools/seed_regress.sh [names...] : re-applies every stored seeded change (seeded/<dir>/patch.diff) to a scratch
# worktree of /repo's current HEAD and runs its property's quick check; one line per change.  Serial (one tree at a time).
cd "$(dirname "$0")/.."
wt=/tmp/seedreg_wt
git -C /repo worktree remove --force $wt 2>/dev/null
git -C /repo worktree add -q --detach $wt HEAD || exit 1
for d in ${@:-$(ls seeded | grep -E '^C[0-9][0-9]-')}; do
  p=${d:0:3}
  ( cd $wt && git checkout -q -- . && git clean -fdq )
  if ! ( cd $wt && git apply --3way seeded_dummy 2>/dev/null; git apply /verif/seeded/$d/patch.diff 2>/dev/null ); then
    echo "$d :: patch does not apply to HEAD (code changed since)"; continue
  fi
  if ! ( cd $wt && GOFLAGS=-mod=mod GOPROXY=off go build ./... >/dev/null 2>&1 ); then echo "$d :: does not build on HEAD"; continue; fi
  out=$(VERIF_REPO=$wt ./check $p 2>&1 | grep -E "^(PASS|FAIL|VIOLATION)" | tr '\n' ' ' | cut -c1-220)
  echo "$d :: $out"
done
( cd $wt && git checkout -q -- . )
git -C /repo worktree remove --force $wt
