#!/usr/bin/env python3
"""seed_prompt.py <name> : write /tmp/seed/prompt_<name>.txt for a seeding sub-agent (name = property id + optional letter) and
create its scratch worktree /tmp/seed/<name>.  The prompt contains only the property text, the anchored files and one-line
descriptions of earlier seeded changes (so that a new one differs); nothing else from /verif."""
import json, os, subprocess, sys
name = sys.argv[1]
pid = name[:3]
props = {json.loads(l)["id"]: json.loads(l) for l in open("/verif/properties.jsonl")}
P = props[pid]
prev = []
for d in sorted(os.listdir("/verif/seeded")):
    if d.startswith(pid + "-"):
        prev.append(json.load(open("/verif/seeded/%s/meta.json" % d))["summary"][:260])
t = open("/verif/tools/seed_prompt_template.txt").read()
t = (t.replace("{NAME}", name).replace("{PID}", pid).replace("{TITLE}", P["title"]).replace("{STATEMENT}", P["statement"])
      .replace("{QUANT}", P["quantifier"]["text"]).replace("{FILES}", ", ".join(P["anchors"]["files"]))
      .replace("{PREVIOUS}", " || ".join(prev) if prev else "(none yet)"))
os.makedirs("/tmp/seed", exist_ok=True)
open("/tmp/seed/prompt_%s.txt" % name, "w").write(t)
if not os.path.isdir("/tmp/seed/" + name):
    subprocess.run(["git", "-C", "/repo", "worktree", "add", "-q", "--detach", "/tmp/seed/" + name, "HEAD"], check=True)
print("/tmp/seed/prompt_%s.txt" % name)
