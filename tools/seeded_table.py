#!/usr/bin/env python3
"""Print the markdown table of seeded changes from seeded/*/meta.json."""
import json, glob, os
rows = []
for d in sorted(glob.glob("/verif/seeded/*/")):
    m = os.path.join(d, "meta.json")
    if not os.path.exists(m):
        continue
    j = json.load(open(m))
    name = os.path.basename(d.rstrip("/"))
    summ = " ".join(str(j.get("summary", "")).split())
    if len(summ) > 230:
        summ = summ[:227] + "..."
    res = " ".join(str(j.get("confirmed_by_coordinator", {}).get("check_result", "")).split())
    rows.append("| `%s` | %s | %s | %s |" % (name, j.get("property", ""), summ.replace("|", "/"), res.replace("|", "/")))
print("| seeded change | prop | what it does | result of the check |\n|---|---|---|---|")
print("\n".join(rows))
