#!/usr/bin/env python3
"""seed_store.py <prop> <dirname> <check_result text> : copy a confirmed seeded change into seeded/<dirname>/"""
import sys, json, os, shutil, glob
prop, name, result = sys.argv[1], sys.argv[2], sys.argv[3]
src = "/tmp/seedwork/" + (sys.argv[4] if len(sys.argv) > 4 else prop)
dst = "/verif/seeded/" + name
os.makedirs(dst, exist_ok=True)
for f in glob.glob(src + "/*"):
    if os.path.basename(f).startswith("FOREIGN"):
        continue
    if os.path.isfile(f) and os.path.basename(f) != "meta.json":
        shutil.copy(f, dst)
m = json.load(open(src + "/meta.json"))
m["confirmed_by_coordinator"] = {"demo_without_patch": "ok", "demo_with_patch": "FAIL", "build_with_patch": "ok", "check_result": result}
json.dump(m, open(dst + "/meta.json", "w"), indent=1)
print("stored", dst)
