#!/bin/bash
# usage: seed_confirm.sh <seed-name> <property> <pkg-for-demo (e.g. . or ./provider/internal/queue)> <worktree> <delivery-dir>
# Confirms a seeded change: demo fails with the patch, passes without; then runs ./check against the mutant.
name=$1; prop=$2; pkg=$3; wt=$4; dl=$5
export GOFLAGS=-mod=mod GOPROXY=off
set -u
cd $wt || exit 1
git checkout -q -- . ; git clean -fdq
# the seeded change is judged on top of /repo's current HEAD (fixes made since the worktree was created included)
git checkout -q --detach $(git -C /repo rev-parse HEAD)
demo=$(ls $dl/*_test.go | head -1)
cp $demo $wt/$pkg/
echo "== demo WITHOUT patch"; go test -count=1 -run 'Seeded' $pkg 2>&1 | tail -3
git apply $dl/patch.diff || { echo "patch does not apply"; exit 1; }
echo "== build WITH patch"; go build ./... && echo build-ok
echo "== demo WITH patch"; go test -count=1 -run 'Seeded' $pkg 2>&1 | tail -4
rm -f $wt/$pkg/$(basename $demo)
git checkout -q go.mod go.sum 2>/dev/null
echo "== check $prop against the mutant"
cd /verif && VERIF_REPO=$wt ./check $prop 2>&1 | tail -3
cp /verif/out/$prop/replay_0.json /tmp/seed/replay_$name.json 2>/dev/null
cd $wt && git checkout -q -- . && git clean -fdq
