#!/usr/bin/env python3
"""Regenerate MANIFEST.json from props/*.py and properties.jsonl."""
import os, json, glob, importlib.util
ROOT = os.path.dirname(os.path.dirname(os.path.abspath(__file__)))
ids = [json.loads(l)["id"] for l in open(os.path.join(ROOT, "properties.jsonl")) if l.strip()]
checks, na = [], []
for pid in ids:
    p = os.path.join(ROOT, "props", pid + ".py")
    if not os.path.exists(p):
        na.append({"property_id": pid, "reason": "check not built yet in this tree (planned in DESIGN.md section 4); not a statement that the technique cannot apply"})
        continue
    try:
        spec = importlib.util.spec_from_file_location("p", p)
        m = importlib.util.module_from_spec(spec); spec.loader.exec_module(m)
        for a in ("LEVEL_TEXT", "LEVEL_NOTE", "TECHNIQUE"):
            getattr(m, a)
        if not getattr(m, "GO_RUNS", None):     # one harness (GO_PKG/HARNESS/GO_TEST) or several (GO_RUNS)
            for a in ("GO_PKG", "HARNESS", "GO_TEST"):
                getattr(m, a)
        if not (os.path.exists(os.path.join(ROOT, "coq", "Props", pid + ".v")) and os.path.exists(os.path.join(ROOT, "evidence", pid + ".json"))):
            raise RuntimeError("incomplete")
    except Exception as ex:
        na.append({"property_id": pid, "reason": "check still under construction in this tree (%s); planned in DESIGN.md section 4" % type(ex).__name__})
        continue
    checks.append({
        "property_id": pid,
        "quick_cmd": "./check %s --tier quick" % pid,
        "thorough_cmd": "./check %s --tier thorough" % pid,
        "evidence_file": "/verif/evidence/%s.json" % pid,
        "replay_cmd_template": "./check %s --replay {path}" % pid,
        "engine": "coq-proof+correspondence",
        "level_claimed": {"category": "proof", "text": m.LEVEL_TEXT, "design_ref": "DESIGN.md section 4, " + pid},
        "level_note": m.LEVEL_NOTE,
        "technique": m.TECHNIQUE,
    })
man = {
    "version": 1,
    "setup_cmd": "./setup.sh",
    "hooks": {
        "guard": "verif",
        "enable": "go test -tags verif -overlay out/<id>/overlay.json (harness files are injected virtually; /repo carries no hook code)",
        "baseline_off_cmd": "cd /repo && GOFLAGS=-mod=mod GOPROXY=off go test -vet=off -count=1 -timeout 25m ./...",
        "source_commits": [],
        "add_only": True,
    },
    "engines": [{"name": "coq-proof+correspondence", "path": "/verif/check",
                 "serves_properties": [c["property_id"] for c in checks],
                 "kind_free_text": "Coq 8.16.1 theorems over hand-written Gallina models (coq/Model, coq/Proofs, coq/Props) plus fragments regenerated "
                                   "from the source by go2coq (coq/Gen); the models are tied to /repo's working tree on every run by a differential "
                                   "correspondence check: Go harnesses injected with go test -overlay run the real code, the same inputs are evaluated "
                                   "on the model with vm_compute"}],
    "checks": checks,
    "not_applicable": na,
    "notes": "All checks rebuild from /repo's working tree; see DESIGN.md. known_findings.json lists recorded and fixed defects.",
}
json.dump(man, open(os.path.join(ROOT, "MANIFEST.json"), "w"), indent=1)
print("checks:", [c["property_id"] for c in checks], "not built:", [n["property_id"] for n in na])
