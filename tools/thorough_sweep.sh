#!/bin/bash
# usage: tools/thorough_sweep.sh C01 C02 ... ; runs setup then each thorough check, one line per result
cd "$(dirname "$0")/.."
./setup.sh > out_setup.log 2>&1 || { echo "SETUP FAILED"; tail -20 out_setup.log; }
for p in "$@"; do
  s=$(date +%s)
  ./check $p --tier thorough > out_thorough_$p.log 2>&1; rc=$?
  echo "$p rc=$rc wall=$(( $(date +%s) - s ))s :: $(grep -E '^(PASS|FAIL|VIOLATION|KNOWN)' out_thorough_$p.log | tr '\n' ' ' | cut -c1-300)"
done
