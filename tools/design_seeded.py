#!/usr/bin/env python3
"""Rewrite the table of seeded changes and the first-missed list in DESIGN.md section 7 from seeded/*/meta.json."""
import json, glob, os, re, subprocess
ROOT = os.path.dirname(os.path.dirname(os.path.abspath(__file__)))
table = subprocess.check_output(["python3", os.path.join(ROOT, "tools", "seeded_table.py")], text=True).rstrip("\n")
missed, total = [], 0
for d in sorted(glob.glob(os.path.join(ROOT, "seeded", "*", ""))):
    m = os.path.join(d, "meta.json")
    if not os.path.exists(m):
        continue
    total += 1
    res = json.load(open(m)).get("confirmed_by_coordinator", {}).get("check_result", "")
    if "missed" in res.lower() or res.startswith("first reported only"):
        missed.append(os.path.basename(d.rstrip("/")))
lines = open(os.path.join(ROOT, "DESIGN.md")).read().split("\n")
a = next(i for i, l in enumerate(lines) if l.startswith("| seeded change |"))
b = a
while b < len(lines) and lines[b].startswith("|"):
    b += 1
lines[a:b] = table.split("\n")
txt = "\n".join(lines)
txt = re.sub(r"Changes first missed \(\d+ of \d+\)", "Changes first missed (%d of %d)" % (len(missed), total), txt)
txt = re.sub(r"(no property and no theorem was weakened: )[^\n]*", lambda m: m.group(1) + ", ".join("`%s`" % x for x in missed) + ".", txt)
open(os.path.join(ROOT, "DESIGN.md"), "w").write(txt)
print("rows", total, "first missed", len(missed))
